"""C02 - everything the client writes conforms to the documented wire format (DESIGN 4, C02)."""
from pyvc.sidecar import *  # noqa: F401,F403

PROPERTY = "C02"
LEVEL = "proof"
PT = "aioesphomeapi._frame_helper.plain_text."
BASE = "aioesphomeapi._frame_helper.base."
NOISE = "aioesphomeapi._frame_helper.noise."

ASSUMPTIONS = [
    "A-PY: Python semantics as encoded by pyvc (ints mathematical, bytes as Seq(Int) with element range 0..255)",
    "A-TYPES: arguments have the annotated types",
    "A-SPECTERM: the recursive spec functions in /verif/specs terminate (they are structural recursions)",
]


def varuint_contract():
    return Contract(
        PT + "_varuint_to_bytes", params={"value": "int"}, result="bytes", tags=["C02"],
        requires=[("nonneg", "value >= 0")],
        ensures=[("minimal-varint", "result == enc_varuint(old(value))"),
                 # side condition of A-CACHE: the function is wrapped in lru_cache, so its results are shared between calls and must be immutable
                 ("result-is-an-immutable-bytes-object", "type(result) is bytes")],
        pre_hints="unfold(enc_varuint(value))",
        loops={"loop#1": dict(
            invariant=["value >= 0",
                       "enc_varuint(old(value)) == bytes(result) + (enc_varuint(value) if value > 0 else b'')"],
            decreases="value",
            body_hints="unfold(enc_varuint(value))")},
    )


def write_bytes_contract():
    return Contract(
        BASE + "APIFrameHelper._write_bytes", self_type="inst[APIFrameHelper]", params={"data": "bytes", "debug_enabled": "bool"},
        tags=["C02"], requires=[("writer-set", "self._writer is not None")],
        ensures=[("one-write", "ghost.wire == old(ghost.wire) + (data,)")],
        raises={"OSError": {"ensures": [("nothing-logged", "ghost.wire == old(ghost.wire)")]},
                "RuntimeError": {"ensures": [("nothing-logged", "ghost.wire == old(ghost.wire)")]}},
        modifies=["ghost.wire"],
    )


def plain_write_packets_contract():
    return Contract(
        PT + "APIPlaintextFrameHelper.write_packets", self_type="inst[APIPlaintextFrameHelper]",
        params={"packets": "seq[tuple[int,bytes]]", "debug_enabled": "bool"}, tags=["C02"],
        requires=[("writer-set", "self._writer is not None"), ("types-nonneg", "types_nonneg(packets, len(packets))")],
        ensures=[("single-write-of-exact-frames", "ghost.wire == old(ghost.wire) + (plain_frames(packets, len(packets)),)")],
        raises={"OSError": {"ensures": [("nothing-written", "ghost.wire == old(ghost.wire)")]},
                "RuntimeError": {"ensures": [("nothing-written", "ghost.wire == old(ghost.wire)")]}},
        modifies=["ghost.wire"],
        loops={"loop#1": dict(
            index="_i", types={"out": "list[bytes]"},
            invariant=["b''.join(out) == plain_frames(packets, _i)", "ghost.wire == old(ghost.wire)",
                       "types_nonneg(packets, len(packets))"],
            entry_hints="unfold(plain_frames(packets, 0))",
            head_hints="unfold(plain_frames(packets, _i))",
            body_hints="unfold(types_nonneg(packets, len(packets)))\ntypes_nonneg_at(packets, len(packets), _i)",
            end_hints="unfold(plain_frames(packets, _i))")},
    )


def targets(eng):
    setup_common(eng)
    frame_helper_specs(eng)
    register_specs(eng, "specs.wire")
    eng.contracts[PT + "_varuint_to_bytes"] = varuint_contract()
    eng.contracts[BASE + "APIFrameHelper._write_bytes"] = write_bytes_contract()
    import contracts.lemmas_wire as lw
    lts = lw.lemma_targets(eng)
    import contracts.native_frames as nf
    return [
        contract_target(varuint_contract(), bounded=nf.bounded_varuint, replay=nf.replay_varuint),
        contract_target(write_bytes_contract()),
        contract_target(plain_write_packets_contract(), bounded=nf.bounded_plain_write),
    ] + lts + _noise_targets() + _conn_targets()


def _conn_targets():
    """send_messages: the batch handed to the frame helper (own engine instance with the connection model)."""
    from pyvc.engine import Engine
    out = []
    for k in (0, 1, 2, 3):
        def run(eng, opts, k=k):
            from contracts import conn
            e2 = Engine()
            ts = [t for t in conn.targets_for(e2, ["send_messages"], ["C02"]) if t.name.endswith(f"[arity{k}]")]
            ts[0].run(e2, opts)
            eng.obligations.extend(e2.obligations)
            eng.assumptions_used |= e2.assumptions_used
        from contracts import native_noise
        out.append(Target(f"connection.APIConnection.send_messages[arity{k}]", "contract", run, replay=native_noise.replay_f9,
                          functions=["aioesphomeapi.connection.APIConnection.send_messages"]))
    return out


def _noise_targets():
    """Noise framing of outgoing packets (own engine instance: the Noise model differs from the plaintext set-up)."""
    from pyvc.engine import Engine
    out = []
    for name in ("write_packets", "lemmas"):
        def run(eng, opts, name=name):
            from contracts import noise
            e2 = Engine()
            for t in noise.targets_for(e2, [name], ["C02"]):
                t.run(e2, opts)
            eng.obligations.extend(e2.obligations)
            eng.assumptions_used |= e2.assumptions_used
        from contracts import native_noise
        out.append(Target("_frame_helper.noise.APINoiseFrameHelper." + name, "contract", run, bounded=native_noise.bounded_noise_write,
                          functions=["aioesphomeapi._frame_helper.noise.APINoiseFrameHelper.write_packets", "aioesphomeapi._frame_helper.noise.EncryptCipher.encrypt"]))
    return out

PTF = "aioesphomeapi/_frame_helper/plain_text.py"
MUTANTS = [
    ("varint-threshold", PTF, "if value <= 0x7F:", "if value <= 0xFF:"),
    ("varint-shift", PTF, "value >>= 7", "value >>= 8"),
    ("varint-no-continuation", PTF, "result.append(temp | 0x80)", "result.append(temp)"),
    ("plain-swap-len-type", PTF, "out.append(varuint_to_bytes(len(data)))\n            out.append(varuint_to_bytes(type_))", "out.append(varuint_to_bytes(type_))\n            out.append(varuint_to_bytes(len(data)))"),
    ("plain-no-preamble", PTF, 'out.append(b"\\0")', 'pass'),
    ("plain-two-writes", PTF, "        self._write_bytes(b\"\".join(out), debug_enabled)\n\n    def data_received", "        self._write_bytes(b\"\".join(out), debug_enabled)\n        self._write_bytes(b\"\", debug_enabled)\n\n    def data_received"),
    ("plain-len-plus-one", PTF, "varuint_to_bytes(len(data))", "varuint_to_bytes(len(data) + 1)"),
]

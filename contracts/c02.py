"""C02 - everything the client writes conforms to the documented wire format (DESIGN 4, C02)."""
from pyvc.sidecar import *  # noqa: F401,F403

PROPERTY = "C02"
LEVEL = "proof"
PT = "aioesphomeapi._frame_helper.plain_text."
BASE = "aioesphomeapi._frame_helper.base."
NOISE = "aioesphomeapi._frame_helper.noise."

ASSUMPTIONS = [
    "A-PY: Python semantics as encoded by pyvc (ints mathematical, bytes as Seq(Int) with element range 0..255)",
    "A-TYPES: arguments have the annotated types",
    "A-SPECTERM: the recursive spec functions in /verif/specs terminate (they are structural recursions)",
]


def varuint_contract():
    return Contract(
        PT + "_varuint_to_bytes", params={"value": "int"}, result="bytes", tags=["C02"],
        requires=[("nonneg", "value >= 0")],
        ensures=[("minimal-varint", "result == enc_varuint(old(value))")],
        pre_hints="unfold(enc_varuint(value))",
        loops={"loop#1": dict(
            invariant=["value >= 0",
                       "enc_varuint(old(value)) == bytes(result) + (enc_varuint(value) if value > 0 else b'')"],
            decreases="value",
            body_hints="unfold(enc_varuint(value))")},
    )


def write_bytes_contract():
    return Contract(
        BASE + "APIFrameHelper._write_bytes", self_type="inst[APIFrameHelper]", params={"data": "bytes", "debug_enabled": "bool"},
        tags=["C02"], requires=[("writer-set", "self._writer is not None")],
        ensures=[("one-write", "ghost.wire == old(ghost.wire) + (data,)")],
        raises={"OSError": {"ensures": [("nothing-logged", "ghost.wire == old(ghost.wire)")]},
                "RuntimeError": {"ensures": [("nothing-logged", "ghost.wire == old(ghost.wire)")]}},
        modifies=["ghost.wire"],
    )


def plain_write_packets_contract():
    return Contract(
        PT + "APIPlaintextFrameHelper.write_packets", self_type="inst[APIPlaintextFrameHelper]",
        params={"packets": "seq[tuple[int,bytes]]", "debug_enabled": "bool"}, tags=["C02"],
        requires=[("writer-set", "self._writer is not None"), ("types-nonneg", "types_nonneg(packets, len(packets))")],
        ensures=[("single-write-of-exact-frames", "ghost.wire == old(ghost.wire) + (plain_frames(packets, len(packets)),)")],
        raises={"OSError": {"ensures": [("nothing-written", "ghost.wire == old(ghost.wire)")]},
                "RuntimeError": {"ensures": [("nothing-written", "ghost.wire == old(ghost.wire)")]}},
        modifies=["ghost.wire"],
        loops={"loop#1": dict(
            index="_i", types={"out": "list[bytes]"},
            invariant=["b''.join(out) == plain_frames(packets, _i)", "ghost.wire == old(ghost.wire)",
                       "types_nonneg(packets, len(packets))"],
            entry_hints="unfold(plain_frames(packets, 0))",
            head_hints="unfold(plain_frames(packets, _i))",
            body_hints="unfold(types_nonneg(packets, len(packets)))\ntypes_nonneg_at(packets, len(packets), _i)",
            end_hints="unfold(plain_frames(packets, _i))")},
    )


def targets(eng):
    setup_common(eng)
    frame_helper_specs(eng)
    register_specs(eng, "specs.wire")
    eng.contracts[PT + "_varuint_to_bytes"] = varuint_contract()
    eng.contracts[BASE + "APIFrameHelper._write_bytes"] = write_bytes_contract()
    import contracts.lemmas_wire as lw
    lts = lw.lemma_targets(eng)
    import contracts.native_frames as nf
    return [
        contract_target(varuint_contract(), bounded=nf.bounded_varuint, replay=nf.replay_varuint),
        contract_target(write_bytes_contract()),
        contract_target(plain_write_packets_contract(), bounded=nf.bounded_plain_write),
    ] + lts

PTF = "aioesphomeapi/_frame_helper/plain_text.py"
MUTANTS = [
    ("varint-threshold", PTF, "if value <= 0x7F:", "if value <= 0xFF:"),
    ("varint-shift", PTF, "value >>= 7", "value >>= 8"),
    ("varint-no-continuation", PTF, "result.append(temp | 0x80)", "result.append(temp)"),
    ("plain-swap-len-type", PTF, "out.append(varuint_to_bytes(len(data)))\n            out.append(varuint_to_bytes(type_))", "out.append(varuint_to_bytes(type_))\n            out.append(varuint_to_bytes(len(data)))"),
    ("plain-no-preamble", PTF, 'out.append(b"\\0")', 'pass'),
    ("plain-two-writes", PTF, "        self._write_bytes(b\"\".join(out), debug_enabled)\n\n    def data_received", "        self._write_bytes(b\"\".join(out), debug_enabled)\n        self._write_bytes(b\"\", debug_enabled)\n\n    def data_received"),
    ("plain-len-plus-one", PTF, "varuint_to_bytes(len(data))", "varuint_to_bytes(len(data) + 1)"),
]

"""C18 - reconnect manager: one attempt at a time, specified backoff, clean stop (DESIGN 4, C18).

Model of what ReconnectLogic touches:
  _cli            opaque client: start_connection / finish_connection are awaited calls that succeed or raise (any Exception)
  loop            Loop/Timer objects of contracts/conn_model.py (call_at arms a timer, cancel() disarms it)
  _connected_lock asyncio.Lock: `async with lock:` is a cut point on entry (wait for the lock), ghost.lock_held while inside;
                  the fields only written under the lock (_connection_state by the *_while_locked setter, ghost.session_open) are
                  not havocked at cut points while this task holds the lock
  callbacks       on_connect / on_disconnect / on_connect_error: awaited user coroutines (cut points), recorded in the path's event log
  zeroconf        async_add_listener / async_remove_listener recorded in the event log
  create_eager_task  records ("task", coroutine) and returns a Task; the coroutine itself is verified as its own entry point
"""
import z3

from pyvc.sidecar import *  # noqa: F401,F403
from pyvc import heapmodel, smt
from pyvc.builtins import cls_code, typeof_f, sym_isinstance, ok
from pyvc.contracts import Contract, Clause, oblige, eval_clause, _parse_expr
from contracts import conn_model as cm

PROPERTY = "C18"
LEVEL = "proof"
RL = "aioesphomeapi.reconnect_logic."
RLS = "aioesphomeapi.reconnect_logic.ReconnectLogicState"
ASSUMPTIONS = [
    "A-ENV(C19): APIClient.start_connection refuses ('Already connected') while its previous session is alive",
    "A-PY, A-TYPES, A-LOOP", "A-LIB(asyncio.Lock): mutual exclusion; `async with lock` may suspend before the body",
    "A-CALLBACK: the user's on_connect / on_disconnect / on_connect_error coroutines return (they may suspend)",
    "A-ENV(C07): the client invokes the stop callback (_on_disconnect) once per established session, after finish_connection succeeded",
    "A-FLOAT: 1.8 ** n for n in 0..10 is evaluated in exact rationals (no tie at .5 exists, so float rounding cannot change round())",
    "create_eager_task: the created task's body is verified as its own entry point (_connect_once_or_reschedule, stop); here only its creation is recorded",
]
NOT_DECIDED = ["whole-history statements (exact timestamps over arbitrarily long stories) beyond the per-segment clauses and the lock/ghost invariants"]

FIELDS = {
    "loop": "obj[Loop]", "_cli": "obj[Client]", "name": "opt[str]", "_on_connect_cb": "callable[UserCoro]", "_on_disconnect_cb": "callable[UserCoro]",
    "_on_connect_error_cb": "opt[callable[UserCoro]]", "_zeroconf_manager": "obj[ZcManager]", "_ptr_alias": "opt[str]", "_a_name": "opt[str]",
    "_connection_state": f"enum[{RLS}]", "_accept_zeroconf_records": "bool", "_connected_lock": "obj[Lock]", "_is_stopped": "bool",
    "_zc_listening": "bool", "_tries": "int", "_connect_task": "opt[obj[Task]]", "_connect_timer": "opt[obj[Timer]]", "_stop_task": "opt[obj[Task]]",
}
MUT = ["name", "_ptr_alias", "_a_name", "_connection_state", "_accept_zeroconf_records", "_is_stopped", "_zc_listening", "_tries", "_connect_task",
       "_connect_timer", "_stop_task"]
LOCKED = ["_connection_state", "_accept_zeroconf_records"]       # written only by the state setters; stable while this task holds the lock ...
# ... except that _call_connect_once may reset CONNECTING -> DISCONNECTED without the lock (it cancels the attempt that holds it)

INV = [
    ("accept-records-only-before-handshake", "implies(self._accept_zeroconf_records, self._connection_state is RS.DISCONNECTED or self._connection_state is RS.CONNECTING)"),
    ("accept-flag-follows-state", "True"),
    ("tries-nonneg", "self._tries >= 0"),
    ("listening-needs-a-name", "implies(self._zc_listening, self.name is not None and self.name != '')"),
]


def P(name, text):
    return Clause(name, text, "property", ["C18"])


def install(eng):
    import asyncio
    import time as _time
    import aioesphomeapi.reconnect_logic as R
    import aioesphomeapi.core as core
    cm.install(eng, check_tags=[])
    eng.add_class_spec("ReconnectLogic", R.ReconnectLogic, dict(FIELDS))
    declare_ghost(eng, **cm.GHOST, **cm.GHOST_AUX, **cm.GHOST_OWNED, lock_held="bool", session_open="bool", lock_held_by_other="bool")
    names = eng.hooks.setdefault("names", {})
    names["RS"] = VClass(R.ReconnectLogicState)
    for n in dir(core):
        k = getattr(core, n)
        if isinstance(k, type) and issubclass(k, Exception):
            names.setdefault(n, VClass(k))
            cls_code(k)
    eng.exception_universe.extend([asyncio.CancelledError, asyncio.TimeoutError, OSError, Exception, AssertionError])

    def bfn(name):
        def deco(f):
            names[name] = VFunc("builtin", name=name, impl=f)
            return f
        return deco

    def rl(st):
        for oid, o in st.heap.items():
            if o.kind == "inst" and o.cls is R.ReconnectLogic:
                return VRef(oid)
        raise Unsupported("no ReconnectLogic object on this path")

    def ghost(st):
        return st.heap[st.ghost_oid].f

    # ---- cut point --------------------------------------------------------------------------------------------------
    def cut(eng_, st, why):
        """Other tasks / timers / the device act: every field may change, except those protected by the lock while we hold it."""
        ref = rl(st)
        o = st.heap[ref.oid]
        lh = truth(ghost(st)["lock_held"])
        held = z3.BoolVal(not smt.feasible(st.pc, z3.Not(lh)))       # do we hold the lock on this path?
        pre = st.clone()
        objs = cm.tracked_objs(st)
        cs = eng_.class_specs[o.cls]
        for f in MUT:
            if f in LOCKED and z3.is_true(held):
                continue
            o.f[f] = fresh(eng_, st, cs.fields[f], "self." + f)
        # ghost.session_open is changed only where on_connect / on_disconnect are called (models below): on_connect needs a successful
        # start_connection, which the client refuses while a session is open; on_disconnect comes once per open session (A-ENV)
        old_regions = dict(st.regions)
        for r in ("Timer.armed",):
            st.regions[r] = z3.Const(fresh_name("R_" + r), z3.ArraySort(ObjS, BoolS))
        for e in objs:
            st.assume(z3.Implies(z3.Not(z3.Select(old_regions["Timer.armed"], e)), z3.Not(z3.Select(st.regions["Timer.armed"], e))))
        # while we hold the lock nobody else is inside a locked region: _is_stopped (written under the lock by start/stop) is stable
        if z3.is_true(held):
            o.f["_is_stopped"] = pre.heap[ref.oid].f["_is_stopped"]
            o.f["_tries"] = pre.heap[ref.oid].f["_tries"]
        # rely: while the manager stays stopped nobody arms a retry timer, creates an attempt or starts listening (every other entry point
        # is verified to do nothing when _is_stopped is set: _on_disconnect, async_update_records, _connect_once_or_reschedule)
        po = pre.heap[ref.oid]
        both_stopped = z3.And(truth(po.f["_is_stopped"]), truth(o.f["_is_stopped"]))
        if not z3.is_true(held):
            st.assume(z3.Implies(both_stopped, z3.And(cm.same_value(o.f["_connect_timer"], po.f["_connect_timer"]),
                                                       cm.same_value(o.f["_connect_task"], po.f["_connect_task"]),
                                                       truth(o.f["_zc_listening"]) == truth(po.f["_zc_listening"]))))
        for nm, txt in INV:
            st.assume(eval_clause(eng_, st, _parse_expr(txt), {"self": ref}))
        st.events = st.events + [("cut", why)]
        st.note("cut:" + why)
    eng.rl_cut = cut

    def check_inv(eng_, st, where):
        ref = rl(st)
        for nm, txt in INV:
            oblige(eng_, st, eval_clause(eng_, st, _parse_expr(txt), {"self": ref}), f"{where}/Inv:{nm}", kind="property", tags=["C18"])
    eng.rl_check_inv = check_inv

    def cancel_outcome(eng_, st):
        s = st.clone()
        s.note("await!CancelledError")
        return (s, Raised(eng_.make_exc(s, asyncio.CancelledError, [])))

    # ---- the client -----------------------------------------------------------------------------------------------------
    def phase(name):
        def impl(eng_, st, recv, args, kwargs):
            def run(eng2, s, key, spec):
                g = ghost(s)
                # (C18) a connection attempt is started/continued only under the lock, while not stopped
                oblige(eng2, s, simp(truth(g["lock_held"])), f"{name}/attempt-only-under-the-lock", kind="property", tags=["C18"])
                if name == "start_connection":
                    o = s.heap[rl(s).oid]
                    oblige(eng2, s, simp(z3.Not(truth(o.f["_is_stopped"]))), f"{name}/no-attempt-while-stopped", kind="property", tags=["C18"])
                    oblige(eng2, s, z3.BoolVal(not any(ev[0] == "cut" and ev[1] != "lock" for ev in s.events if True) or s.events[-1][0] != "cut"),
                           f"{name}/no-suspension-between-the-stopped-check-and-the-attempt", kind="auxiliary", tags=["C18"])
                s.events = s.events + [("attempt", name)]
                check_inv(eng2, s, f"await {name}")
                cut(eng2, s, f"await _cli.{name}")
                s_err = s.clone()
                s_err.note(f"{name}!fails")
                if name == "start_connection":
                    # C19: the client refuses a new attempt ('Already connected') while its previous session is still alive
                    s.assume(z3.Not(truth(ghost(s)["session_open"])))
                return [(s, VNone), (s_err, Raised(eng2.fresh_exception(s_err, Exception))), cancel_outcome(eng2, s)]
            return ok(st, VFunc("awaitable", run=run, name=name))
        return impl
    eng.obj_methods[("Client", "start_connection")] = phase("start_connection")
    eng.obj_methods[("Client", "finish_connection")] = phase("finish_connection")
    eng.obj_attrs[("Client", "log_name")] = lambda e, s, v: VStr(z3.Const("cli_log_name", StrS))
    eng.obj_attrs[("Client", "address")] = lambda e, s, v: VStr(z3.Const("cli_address", StrS))
    eng.obj_attrs[("Client", "zeroconf_manager")] = lambda e, s, v: VObj(z3.Const("zc_manager", ObjS), "ZcManager")
    eng.obj_methods[("Client", "set_cached_name_if_unset")] = lambda e, s, r, a, k: ok(s, VNone)

    # ---- user coroutines ------------------------------------------------------------------------------------------------------
    def usercoro(eng_, st, fv, args, kwargs):
        def run(eng2, s, key, spec):
            ref = rl(s)
            o = s.heap[ref.oid]
            which = "other"
            for nm in ("_on_connect_cb", "_on_disconnect_cb", "_on_connect_error_cb"):
                fvv = o.f[nm]
                alts = fvv.alts if isinstance(fvv, VUnion) else [(None, fvv)]
                if any(isinstance(a, VObj) and a.e.eq(fv.e) for _, a in alts):
                    which = nm
            g = ghost(s)
            if which in ("_on_connect_cb", "_on_disconnect_cb"):
                oblige(eng2, s, simp(truth(g["lock_held"])), f"{which}/called-only-under-the-lock", kind="property", tags=["C18"])
            if which == "_on_connect_cb":
                oblige(eng2, s, simp(z3.Not(truth(g["session_open"]))), "on_connect/alternates-with-on_disconnect", kind="property", tags=["C18"])
                g["session_open"] = VBool(True)
            if which == "_on_disconnect_cb":
                oblige(eng2, s, simp(truth(g["session_open"])), "on_disconnect/alternates-with-on_connect", kind="property", tags=["C18"])
                g["session_open"] = VBool(False)
            s.events = s.events + [("usercoro", which, list(args))]
            check_inv(eng2, s, f"await {which}")
            cut(eng2, s, f"await {which}")
            return [(s, VNone), cancel_outcome(eng2, s)]
        return ok(st, VFunc("awaitable", run=run, name="user coroutine"))
    eng.callout_models["UserCoro"] = usercoro

    # ---- lock -------------------------------------------------------------------------------------------------------------
    eng.obj_methods[("Lock", "locked")] = lambda e, s, r, a, k: ok(s, VBool(z3.Or(truth(ghost(s)["lock_held"]), truth(ghost(s)["lock_held_by_other"]))))

    def with_other(eng_, n, st, cv):
        if not (isinstance(cv, VObj) and cv.cls == "Lock"):
            return None
        g = ghost(st)
        check_inv(eng_, st, "acquire lock")
        cut(eng_, st, "lock")                      # waiting for the lock: others run
        out = [cancel_outcome(eng_, st)]
        g = ghost(st)
        g["lock_held"] = VBool(True)
        g["lock_held_by_other"] = VBool(False)
        st.events = st.events + [("lock_acquired",)]
        for s2, o2 in eng_.exec_block(n.body, st):
            g2 = ghost(s2)
            g2["lock_held"] = VBool(False)
            s2.events = s2.events + [("lock_released",)]
            out.append((s2, o2))
        return out
    eng.hooks["with_other"] = with_other

    # ---- tasks / timers / zeroconf / clock ------------------------------------------------------------------------------------------
    eng.regions_decl["Task.done"] = (BoolS, None)

    def create_task(eng_, st, args, kwargs):
        t = eng_.new_obj(st, "task", "Task")
        rset(eng_, st, "Task.done", t, z3.BoolVal(False))
        nm = args[0].name if isinstance(args[0], VFunc) else "coroutine"
        st.events = st.events + [("task", nm, t)]
        return ok(st, VObj(t, "Task"))
    eng.builtins[id(R.create_eager_task)] = create_task
    eng.obj_methods[("Task", "done")] = lambda e, s, r, a, k: ok(s, VBool(rget(e, s, "Task.done", r.e)))

    def task_cancel(eng_, st, recv, args, kwargs):
        st.events = st.events + [("task_cancel", recv.e, eng_.lookup("self", st).oid if False else None)]
        return ok(st, VBool(True))
    eng.obj_methods[("Task", "cancel")] = task_cancel
    eng.obj_methods[("Task", "add_done_callback")] = lambda e, s, r, a, k: ok(s, VNone)
    eng.obj_methods[("ZcManager", "get_async_zeroconf")] = lambda e, s, r, a, k: ok(s, VObj(z3.Const("aiozc", ObjS), "AsyncZeroconf"))
    eng.obj_methods[("ZcManager", "set_instance")] = lambda e, s, r, a, k: ok(s, VNone)
    eng.obj_attrs[("AsyncZeroconf", "zeroconf")] = lambda e, s, v: VObj(z3.Const("zc", ObjS), "Zeroconf")

    def zc_close(eng_, st, recv, args, kwargs):
        def run(eng2, s, key, spec):
            check_inv(eng2, s, "await async_close")
            cut(eng2, s, "await zeroconf_manager.async_close")
            return [(s, VNone), cancel_outcome(eng2, s)]
        return ok(st, VFunc("awaitable", run=run, name="async_close"))
    eng.obj_methods[("ZcManager", "async_close")] = zc_close

    def listener(kind):
        def impl(eng_, st, recv, args, kwargs):
            st.events = st.events + [(kind,)]
            return ok(st, VNone)
        return impl
    eng.obj_methods[("Zeroconf", "async_add_listener")] = listener("zc_add")
    eng.obj_methods[("Zeroconf", "async_remove_listener")] = listener("zc_remove")
    eng.builtins[id(_time.perf_counter)] = lambda e, s, a, k: ok(s, VReal(z3.Real(fresh_name("perf_counter"))))

    # records
    rtype_f = z3.Function("record_type", ObjS, IntS)
    ralias_f = z3.Function("record_alias", ObjS, StrS)
    rname_f = z3.Function("record_name", ObjS, StrS)
    rnew_f = z3.Function("update_new", ObjS, ObjS)
    eng.obj_attrs[("RecordUpdate", "new")] = lambda e, s, v: VObj(rnew_f(v.e), "DNSRecord")
    eng.obj_attrs[("DNSRecord", "type")] = lambda e, s, v: VInt(rtype_f(v.e))
    eng.obj_attrs[("DNSRecord", "alias")] = lambda e, s, v: VStr(ralias_f(v.e))
    eng.obj_attrs[("DNSRecord", "name")] = lambda e, s, v: VStr(rname_f(v.e))

    @bfn("record_matches")
    def _rm(eng_, st, args, kwargs):
        """The record filter of the statement: PTR with alias '<name>._esphomelib._tcp.local.' or A with name '<name>.local.'."""
        u, ptr_alias, a_name = args
        n = rnew_f(u.e)

        def seq(v):
            alts = v.alts if isinstance(v, VUnion) else [(z3.BoolVal(True), v)]
            return [(g, a) for g, a in alts]
        ptr = z3.Or(*[z3.And(g, z3.BoolVal(False) if isinstance(a, VNoneT) else ralias_f(n) == a.e) for g, a in seq(ptr_alias)])
        an = z3.Or(*[z3.And(g, z3.BoolVal(False) if isinstance(a, VNoneT) else rname_f(n) == a.e) for g, a in seq(a_name)])
        from zeroconf.const import _TYPE_A, _TYPE_PTR
        return ok(st, VBool(simp(z3.Or(z3.And(rtype_f(n) == _TYPE_PTR, ptr), z3.And(rtype_f(n) == _TYPE_A, an)))))

    # float power with a small integer exponent (the backoff): exact rationals per exponent value
    prev_binop = eng.builtin_mod.binop

    def binop(eng_, st, op, a, b):
        import ast as _ast
        from fractions import Fraction
        if isinstance(op, _ast.Pow) and isinstance(a, VReal) and isinstance(b, (VInt,)):
            base = simp(a.e)
            if z3.is_rational_value(base):
                fr = Fraction(base.numerator_as_long(), base.denominator_as_long())
                lo, hi = 0, 10
                if not (smt.feasible(st.pc, z3.Or(b.e < lo, b.e > hi)) is False):
                    if smt.feasible(st.pc, z3.Or(b.e < lo, b.e > hi)):
                        raise Unsupported("** with an exponent not provably in 0..10")
                e = z3.RealVal(str(fr ** hi))
                for k in range(hi - 1, lo - 1, -1):
                    v = fr ** k
                    e = z3.If(b.e == k, z3.RealVal(f"{v.numerator}/{v.denominator}"), e)
                return VReal(e)
        return prev_binop(eng_, st, op, a, b)
    eng.builtin_mod.binop = binop

    @bfn("backoff")
    def _backoff(eng_, st, args, kwargs):
        """min(round(1.8 ** n), 60) for n = min(tries, 10), from the statement; exact rationals."""
        from fractions import Fraction
        t = as_int(args[0])
        e = z3.IntVal(60)
        for k in range(10, -1, -1):
            v = min(round(Fraction(18, 10) ** k), 60)
            e = z3.If((z3.If(t > 10, z3.IntVal(10), t)) == k, z3.IntVal(int(v)), e)
        return ok(st, VInt(e))

    prev_nd = eng.hooks.get("names_dynamic")

    def nd(name, st):
        ev = st.events
        if name == "stopped_under_lock":
            return VBool(any(e[0] == "lock_acquired" for e in ev))
        if name == "n_tasks":
            return VInt(sum(1 for e in ev if e[0] == "task"))
        if name == "n_attempts":
            return VInt(sum(1 for e in ev if e[0] == "attempt" and e[1] == "start_connection"))
        if name == "n_zc_add":
            return VInt(sum(1 for e in ev if e[0] == "zc_add"))
        if name == "n_zc_remove":
            return VInt(sum(1 for e in ev if e[0] == "zc_remove"))
        if name == "n_task_cancel":
            return VInt(sum(1 for e in ev if e[0] == "task_cancel"))
        if name == "n_error_reports":
            return VInt(sum(1 for e in ev if e[0] == "usercoro" and e[1] == "_on_connect_error_cb"))
        if name == "n_on_connect":
            return VInt(sum(1 for e in ev if e[0] == "usercoro" and e[1] == "_on_connect_cb"))
        if name == "n_on_disconnect":
            return VInt(sum(1 for e in ev if e[0] == "usercoro" and e[1] == "_on_disconnect_cb"))
        if name == "n_timers":
            return VInt(sum(1 for e in ev if e[0] == "call_at"))
        return prev_nd(name, st) if prev_nd else None
    eng.hooks["names_dynamic"] = nd

    def await_hook(eng_, st, v):
        if isinstance(v, VFunc) and v.kind == "awaitable":
            return v.run(eng_, st, None, {})
        return ok(st, v)
    eng.hooks["await"] = await_hook
    # `async with`: reuse the context-manager hook of conn_model for non-lock managers
    cm.install_async(eng)
    eng.hooks["await"] = await_hook

    def exit_checks(eng_, c, st, result, exc):
        if getattr(c, "rl_entry", False):
            check_inv(eng_, st, "exit" if exc is None else "exit-exc")
    eng.hooks["exit_checks"] = exit_checks
    return names


def rl_contract(qual, **kw):
    setup = kw.pop("setup", None)

    def _setup(eng, st):
        for r in list(cm.REGIONS) + ["Task.done"]:
            region(eng, st, r)
        ref = st.env.f["self"]
        for nm, txt in INV:
            st.assume(eval_clause(eng, st, _parse_expr(txt), {"self": ref}))
        for e in cm.tracked_objs(st):
            st.fact(heapmodel.is_old_f(e))
        if setup:
            setup(eng, st)
    c = Contract(RL + "ReconnectLogic." + qual, self_type="inst[ReconnectLogic]", setup=_setup, tags=["C18"], **kw)
    c.rl_entry = True
    return c


def contracts():
    TIMER = "self._connect_timer is not None and armed(self._connect_timer) and timer_cb(self._connect_timer) is boxed(self._call_connect_once)"
    return [
        rl_contract("_handle_connection_failure", params={"err": "exc[Exception]"},
                    requires=[("lock-held", "ghost.lock_held")],
                    ensures=[P("auth-errors-back-off-at-the-maximum-else-one-more-try",
                               "self._tries == (100 if (typeof_is(err, RequiresEncryptionAPIError) or typeof_is(err, InvalidEncryptionKeyAPIError) or "
                               "typeof_is(err, InvalidAuthAPIError)) else old(self._tries) + 1)"),
                             P("failed-attempt-reported-once", "n_error_reports == (1 if self._on_connect_error_cb is not None else 0)"),
                             P("back-to-disconnected", "self._connection_state is RS.DISCONNECTED")],
                    raises={"CancelledError": {"kind": "auxiliary"}}),
        rl_contract("_schedule_connect", params={"delay": "real"}, requires=[("delay-nonneg", "delay >= 0")],
                    ensures=[P("one-timer-at-now-plus-delay-or-an-immediate-attempt",
                               f"(n_tasks <= 1 and n_timers == 0) if delay == 0 else (n_tasks == 0 and n_timers == 1 and {TIMER} and timer_when(self._connect_timer) == ghost.now + delay "
                               "and not armed(old(self._connect_timer)))"),
                             P("scheduling-does-not-touch-the-mdns-listener", "self._zc_listening == old(self._zc_listening) and n_zc_add == 0 and n_zc_remove == 0")]),
        rl_contract("_call_connect_once",
                    ensures=[P("never-cancels-an-attempt-past-connecting",
                               "implies(old(self._connect_task) is not None and not old(task_done(self._connect_task)) and old(self._connection_state) is not RS.CONNECTING, "
                               "n_task_cancel == 0 and n_tasks == 0 and self._connect_task is old(self._connect_task))"),
                             P("at-most-one-new-task", "n_tasks <= 1")]),
        rl_contract("_connect_once_or_reschedule",
                    requires=[("lock-free-view", "not ghost.lock_held")],
                    ensures=[P("one-attempt-at-most-and-only-when-allowed", "n_attempts <= 1"),
                             P("retry-after-the-specified-backoff",
                               "implies(n_timers == 1 and n_attempts == 1, timer_when(last_timer()) == now_at_timer() + backoff(self._tries))"),
                             P("listens-for-mdns-only-while-waiting-for-a-retry", "implies(n_zc_add > 0, n_timers == 1 and n_attempts == 1)")],
                    raises={"CancelledError": {"kind": "auxiliary"}}),
        rl_contract("_on_disconnect", params={"expected_disconnect": "bool"},
                    requires=[("a-session-was-open", "ghost.session_open"), ("lock-free-view", "not ghost.lock_held")],
                    ensures=[P("reconnect-immediately-after-an-unexpected-disconnect-else-after-5s",
                               "implies(not self._is_stopped, (n_timers == 1 and timer_when(last_timer()) == now_at_timer() + 5.0) if expected_disconnect else (n_timers == 0 and n_tasks <= 1))"),
                             P("nothing-scheduled-once-stopped", "implies(self._is_stopped, n_timers == 0 and n_tasks == 0)"),
                             P("on-disconnect-called-once", "n_on_disconnect == 1"),
                             P("cool-down-does-not-listen-for-mdns", "n_zc_add == 0")],
                    raises={"CancelledError": {"kind": "auxiliary"}}),
        rl_contract("stop", requires=[("lock-free-view", "not ghost.lock_held")],
                    # (a concurrent start() during the final await may legitimately restart the manager: the quiet state is claimed for as long as it stays stopped)
                    ensures=[P("stopped-and-nothing-pending", "implies(self._is_stopped, self._connect_timer is None and self._connect_task is None and not self._zc_listening)"),
                             P("stop-flag-set-under-the-lock", "stopped_under_lock")],
                    raises={"CancelledError": {"kind": "auxiliary"}}),
        rl_contract("start", requires=[("lock-free-view", "not ghost.lock_held")],
                    ensures=[P("started", "not self._is_stopped"),
                             P("first-attempt-at-once-with-a-fresh-backoff", "implies(n_tasks == 1, self._tries == 0)")],
                    raises={"CancelledError": {"kind": "auxiliary"}}),
        rl_contract("async_update_records", params={"zc": "obj[Zeroconf]", "now": "real", "records": "seq[obj[RecordUpdate]]"},
                    ghost_params={"j": "int"},
                    ensures=[P("triggers-only-while-accepting-and-not-stopped", "implies(not old(self._accept_zeroconf_records) or old(self._is_stopped), n_tasks == 0 and n_timers == 0 and n_zc_remove == 0)"),
                             P("triggers-at-most-once-and-stops-accepting", "n_tasks <= 1 and implies(n_tasks == 1, not self._accept_zeroconf_records)"),
                             P("a-matching-record-triggers-an-immediate-attempt",
                               "implies(old(self._accept_zeroconf_records) and not old(self._is_stopped) and 0 <= j and j < len(records) and "
                               "record_matches(records[j], old(self._ptr_alias), old(self._a_name)), not self._accept_zeroconf_records)"),
                             P("non-matching-records-trigger-nothing",
                               "implies(self._accept_zeroconf_records == old(self._accept_zeroconf_records) and old(self._accept_zeroconf_records), n_tasks == 0)")],
                    loops={"loop#1": dict(index="_i", invariant=[
                        "implies(0 <= j and j < _i, not record_matches(records[j], self._ptr_alias, self._a_name))",
                        "self._accept_zeroconf_records and not self._is_stopped and n_tasks == 0"])}),
        rl_contract("_try_connect", requires=[("lock-held", "ghost.lock_held"), ("allowed", "not self._is_stopped and self._connection_state is RS.DISCONNECTED")],
                    result="bool",
                    ensures=[P("success-means-ready-and-on-connect-called-once", "implies(result, self._connection_state is RS.READY and n_on_connect == 1 and self._tries == 0)"),
                             P("failure-means-disconnected-and-no-on-connect", "implies(not result, self._connection_state is RS.DISCONNECTED and n_on_connect == 0)"),
                             # the back-off grows with every failed attempt, whatever stage it failed at (auth errors jump to the maximum)
                             P("a-failed-attempt-counts-towards-the-backoff", "implies(not result, self._tries == old(self._tries) + 1 or self._tries == 100)"),
                             P("stops-listening-once-the-socket-is-open", "True")],
                    raises={"CancelledError": {"kind": "auxiliary"}}),
    ]


def targets(eng):
    names = install(eng)
    import aioesphomeapi.reconnect_logic as R

    def bfn(name):
        def deco(f):
            names[name] = VFunc("builtin", name=name, impl=f)
            return f
        return deco

    @bfn("task_done")
    def _td(eng_, st, args, kwargs):
        v = args[0]
        alts = v.alts if isinstance(v, VUnion) else [(z3.BoolVal(True), v)]
        return ok(st, VBool(simp(z3.Or(*[z3.And(g, z3.BoolVal(False) if isinstance(a, VNoneT) else rget(eng_, st, "Task.done", a.e)) for g, a in alts]))))

    @bfn("last_timer")
    def _lt(eng_, st, args, kwargs):
        ts = [ev[1] for ev in st.events if ev[0] == "call_at"]
        return ok(st, VObj(ts[-1], "Timer"))

    @bfn("now_at_timer")
    def _nat(eng_, st, args, kwargs):
        return ok(st, st.heap[st.ghost_oid].f["now"])
    cs = contracts()
    # The postconditions speak about the path's own event log (timers armed, tasks created, user coroutines called): such a
    # clause cannot be *assumed* at a call site, where the events have not happened on the caller's path.  Callers therefore run
    # the callee's body (its preconditions are still obligations of the call); every function is also verified as its own target.
    from pyvc.contracts import oblige as _oblige

    def callee(c):
        d = Contract(c.target, self_type="inst[ReconnectLogic]")

        def model(eng_, st, fv, args, kwargs, c=c):
            out = []
            eng_.push_frame(st, None, fv.module, fv.qualname + "@requires")
            for s, r in eng_.bind_args(fv, args, kwargs, st):
                if isinstance(r, Raised):
                    s.frames.pop()
                    out.append((s, r))
                    continue
                for cl in c.requires:
                    g = eval_clause(eng_, s, cl.node)
                    _oblige(eng_, s, g, f"call:{fv.qualname}/{cl.name}", kind="auxiliary")
                    s.assume(g)
                s.frames.pop()
                out.extend(eng_.inline_call(fv, args, kwargs, s))
            return out
        d.model = model
        return d
    for c in cs:
        eng.contracts[c.target] = callee(c)
    eng.inline.update({RL + "ReconnectLogic." + n for n in (
        "_async_set_connection_state_while_locked", "_async_set_connection_state_without_lock", "_async_log_connection_error", "_cancel_connect_timer",
        "_cancel_connect_task", "_cancel_connect", "_start_zc_listen", "_stop_zc_listen", "_connect_from_zeroconf", "_remove_stop_task")})
    import contracts.native_reconnect as nr
    return [contract_target(c, replay=(nr.replay_update_records if c.target.endswith("async_update_records") else None)) for c in cs]


# built-in mutants of the real source text for the thorough tier's self-check (each must be refuted by a named obligation)
MUTANTS = [('auth-errors-count-as-ordinary', 'aioesphomeapi/reconnect_logic.py', '            self._tries = MAXIMUM_BACKOFF_TRIES', '            self._tries += 1')]

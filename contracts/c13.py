"""C13 - message-id registry equals api.proto ids; traffic respects direction (DESIGN 4, C13).

Finite, complete enumeration: one ground obligation per (message | id | table position | descriptor | call site),
generated from the program text (ast) and api.proto text on every run by /verif/ground/c13.py.
"""
from pyvc.sidecar import *  # noqa: F401,F403

PROPERTY = "C13"
LEVEL = "proof"
ASSUMPTIONS = [
    "A-PROTO-TEXT: api.proto / api_options.proto as parsed by ground/protoparse.py (own parser, self-tested) are the oracle",
    "A-STATIC-RESOLUTION: message classes at call sites are resolved statically from the AST (ground/msgflow.py); an unresolved site is 'unsupported', never a pass",
    "compiled descriptors are read by importing api_pb2/api_options_pb2 from the working tree in a subprocess",
]
EXPLANATION = ("Ground obligations over the finite program text, each discharged by exact evaluation (backend 'ground-eval'): "
               "api.proto ids unique/contiguous; core.MESSAGE_TYPE_TO_PROTO dict literal (from the AST) maps every id to the class api.proto declares, "
               "nothing else, in positional order; derived tables keep their defining expressions; compiled descriptors equal the text; "
               "every send/subscribe call site resolves to classes whose (source) option allows that direction.")


def targets(eng):
    import ground.c13 as g
    fams = ["ids", "table", "descriptors", "direction"]
    ts = [ground_target(f"ground:{f}", (lambda f=f: g.obligations(source.REPO, None, only=[f])),
                        functions=["aioesphomeapi.core.MESSAGE_TYPE_TO_PROTO", "aioesphomeapi.connection.MESSAGE_NUMBER_TO_PROTO",
                                   "aioesphomeapi.connection.PROTO_TO_MESSAGE_TYPE"]) for f in fams]
    # how the table is *used*: the real process_packet, symbolically, for every type number (which ids are taken as defined, which class
    # is instantiated for them) - the contract of C12 with its registry clause tagged C13
    from contracts import conn
    from pyvc.engine import Engine
    e2 = Engine()
    try:
        conn_ts = conn.targets_for(e2, ["process_packet"], ["C13"])
    except Exception as e:      # noqa: BLE001
        # the registry is inconsistent to the point that the model of the connection cannot even be set up (e.g. api.proto names a
        # message the compiled module does not have): the ground obligations above report that; this part is simply not decided
        from pyvc.obl import Obligation
        msg = f"{type(e).__name__}: {e}"[:200]
        ts.append(ground_target("process_packet (not analysed)", lambda: [Obligation(
            id="C13/connection.APIConnection.process_packet/supported", property="C13", kind="auxiliary", status="unsupported", backend="ground-eval",
            goal="the connection model can be set up from api.proto and the compiled module", function="aioesphomeapi.connection.APIConnection.process_packet", detail=msg)]))
        return ts
    for t in conn_ts:
        def run(eng_, opts, name=t.name):
            e3 = Engine()
            tt = [x for x in conn.targets_for(e3, ["process_packet"], ["C13"]) if x.name == name][0]
            tt.run(e3, opts)
            eng_.obligations.extend(e3.obligations)
            eng_.assumptions_used |= e3.assumptions_used
        ts.append(Target(t.name, "contract", run, functions=t.functions, replay=t.replay))
    return ts

"""C06 - sessions only with a compatible, correctly named, authenticated device (DESIGN 4, C06)."""
from pyvc.sidecar import *  # noqa: F401,F403
from contracts import conn

PROPERTY = "C06"
LEVEL = "proof"
ASSUMPTIONS = conn.COMMON_ASSUMPTIONS


def targets(eng):
    return conn.targets_for(eng, ["_process_hello_resp", "_process_login_response", "_make_connect_request", "_connect_hello_login",
                                  "finish_connection"], ["C06"])

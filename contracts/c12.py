"""C12 - dispatch exactly once in order; unknown types ignored; peer requests answered (DESIGN 4, C12)."""
from pyvc.sidecar import *  # noqa: F401,F403
from contracts import conn

PROPERTY = "C12"
LEVEL = "proof"
ASSUMPTIONS = conn.COMMON_ASSUMPTIONS


def targets(eng):
    return conn.targets_for(eng, ["process_packet", "_handle_ping_request_internal", "_handle_get_time_request_internal",
                                  "_handle_disconnect_request_internal", "_add_message_callback_without_remove",
                                  "add_message_callback", "_remove_message_callback", "finish_connection"], ["C12"])


# built-in mutants of the real source text for the thorough tier's self-check (each must be refuted by a named obligation)
MUTANTS = [('dispatch-without-copy', 'aioesphomeapi/connection.py', '            handlers_copy = handlers.copy()', '            handlers_copy = handlers')]

"""C03 - Noise sessions interoperate with any conformant responder, for any chunking (DESIGN 4, C03)."""
from pyvc.sidecar import *  # noqa: F401,F403
from contracts import noise

PROPERTY = "C03"
LEVEL = "proof"
BOUNDED = [{"function": "whole Noise session against the real noise library as responder", "engine": "native enumeration", "bound": "hello++handshake++3 data frames, all segmentations into <= 3 chunks on a stride-3 grid (stride 1 in the thorough tier), names present/absent"}]
ASSUMPTIONS = ["A-CRYPTO: ChaCha20-Poly1305 and the noiseprotocol state machine are idealised (assumed contracts); conformance of those libraries is not verified",
               "A-PY, A-TYPES, A-SPECTERM", "component contract (assume/guarantee): the helper sees the connection only through process_packet (records the packet; may call the helper's close(); may raise) and report_fatal_error (records the error; may call close()) - the behaviour proved for APIConnection under C08/C09/C12", "A-LOOP: an exception escaping data_received makes the transport call connection_lost(exc)"]


def targets(eng):
    from contracts import native_noise
    return [ground_target("bounded:noise-session", native_noise.bounded_noise_obligations,
                          functions=["aioesphomeapi._frame_helper.noise.APINoiseFrameHelper (whole session, bounded)"])] + noise.targets_for(eng, ["__init__", "connection_made", "_setup_proto", "_send_hello_handshake", "_handle_hello", "_handle_handshake", "_handle_frame", "_handle_closed",
                                   "data_received", "lemmas"], ["C03"])


# built-in mutants of the real source text for the thorough tier's self-check (each must be refuted by a named obligation)
MUTANTS = [('noise-marker-any', 'aioesphomeapi/_frame_helper/noise.py', '            if preamble != 0x01:', '            if preamble != 0x01 and preamble != 0x02:')]

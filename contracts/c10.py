"""C10 - keepalive: ping only when idle; silent peer dropped in (5.5K, 6.5K]; live never (DESIGN 4, C10)."""
from pyvc.sidecar import *  # noqa: F401,F403
from contracts import conn

PROPERTY = "C10"
LEVEL = "proof"
ASSUMPTIONS = conn.COMMON_ASSUMPTIONS + ["A-LOOP(timers): call_at callbacks run at their deadline (the window lemma is over ideal ticks)"]


def targets(eng):
    return conn.targets_for(eng, ["__init__", "_async_send_keep_alive", "_async_pong_not_received", "process_packet", "lemma:keepalive-window"], ["C10"])

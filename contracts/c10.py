"""C10 - keepalive: ping only when idle; silent peer dropped in (5.5K, 6.5K]; live never (DESIGN 4, C10)."""
from pyvc.sidecar import *  # noqa: F401,F403
from contracts import conn

PROPERTY = "C10"
LEVEL = "proof"
ASSUMPTIONS = conn.COMMON_ASSUMPTIONS + ["A-LOOP(timers): call_at callbacks run at their deadline (the window lemma is over ideal ticks)"]


def targets(eng):
    return conn.targets_for(eng, ["__init__", "send_messages", "_async_send_keep_alive", "_async_pong_not_received", "process_packet", "lemma:keepalive-window"], ["C10"])


# built-in mutants of the real source text for the thorough tier's self-check (each must be refuted by a named obligation)
MUTANTS = [('pong-deadline-uses-interval', 'aioesphomeapi/connection.py', '                    now + self._keep_alive_timeout, self._async_pong_not_received', '                    now + self._keep_alive_interval, self._async_pong_not_received')]

"""Native replay for the client-layer contracts (C15): call the real APIClient method on the counter-model's
arguments with a recording fake connection and evaluate the failing contract clause in CPython."""
from __future__ import annotations

import struct
from unittest.mock import MagicMock


def f32(x):
    return struct.unpack("<f", struct.pack("<f", float(x)))[0]


def _client(major, minor):
    import asyncio
    from aioesphomeapi.client import APIClient
    from aioesphomeapi.model import APIVersion
    loop = asyncio.new_event_loop()
    asyncio.set_event_loop(loop)
    cli = APIClient("127.0.0.1", 6053, None)
    conn = MagicMock()
    conn.is_connected = True
    conn.api_version = APIVersion(major, minor)
    sent = []
    conn.send_message = lambda m: sent.append(m)
    cli._connection = conn
    return cli, sent, loop


def _decode(v, ty):
    import aioesphomeapi.model as M
    if isinstance(v, str) and "." in v and ty and "enum[" in ty:
        cls, _, mem = v.partition(".")
        return getattr(getattr(M, cls), mem)
    if isinstance(v, list):
        return tuple(v)
    return v


def replay_command(method, params, clause_text):
    def replay_one(o, m, major, minor):
        args = {p: _decode(m.get(p), ty) for p, ty in params.items()}
        cli, sent, loop = _client(major, minor)
        try:
            try:
                getattr(cli, method)(**args)
            except Exception as e:
                return True, f"{method}(**{args!r}) with API {major}.{minor} raised {type(e).__name__}: {e}"
            import aioesphomeapi.api_pb2 as pb

            def apiv_ge(self, a, b):
                return (major, minor) >= (a, b)
            env = dict(args)
            env.update({"sent": sent, "f32": f32, "apiv_ge": apiv_ge, "self": cli, "len": len, "int": int, "round": round, "type": type})
            env.update({n: getattr(pb, n) for n in dir(pb) if n.endswith("Request")})
            text = clause_text(o["goal"])
            if text is None:
                return None, f"no clause named {o['goal']}"
            good = bool(eval(text, {"__builtins__": {}}, env))
            return (not good), f"{method}(**{args!r}) with API {major}.{minor}: clause `{text}` is {good} on the request actually sent: {str(sent[0]).strip()!r}"[:700]
        finally:
            loop.close()

    def replay(o):
        m = o.get("model") or {}
        major = m.get("self._connection.api_version.major")
        minor = m.get("self._connection.api_version.minor")
        # the counter-model does not always name the negotiated version (it sits behind the connection object): then the argument values
        # are tried at the versions around every threshold the commands know (1.0, 1.2, 1.4, 1.10)
        versions = [(major, minor)] if isinstance(major, int) and isinstance(minor, int) else [(1, 0), (1, 2), (1, 4), (1, 10)]
        last = (None, "no version tried")
        for mj, mn in versions:
            r = replay_one(o, m, mj, mn)
            if r[0] is True:
                return r
            last = r
        return last
    return replay


def bounded_execute_service():
    """execute_service: every argument type, alone and all together, around the 1.3 threshold (bounded stand-in)."""
    import time
    from pyvc.obl import Obligation
    from aioesphomeapi.model import UserService, UserServiceArg, UserServiceArgType as T
    t0 = time.time()
    samples = {T.BOOL: [True, False], T.INT: [0, -5, 2**31 - 1], T.FLOAT: [0.0, 1.5], T.STRING: ["", "abc"],
               T.BOOL_ARRAY: [[], [True, False]], T.INT_ARRAY: [[], [1, -2]], T.FLOAT_ARRAY: [[0.5]], T.STRING_ARRAY: [[], ["a", ""]]}
    field = {T.BOOL: "bool_", T.FLOAT: "float_", T.STRING: "string_", T.BOOL_ARRAY: "bool_array", T.INT_ARRAY: "int_array",
             T.FLOAT_ARRAY: "float_array", T.STRING_ARRAY: "string_array"}
    bad = None
    n = 0
    for (major, minor) in [(1, 2), (1, 3), (1, 10), (0, 9), (2, 0)]:
        combos = [[(t, v)] for t in samples for v in samples[t]] + [[(t, samples[t][-1]) for t in samples]]
        cli0, sent0, loop0 = _client(major, minor)      # one long-lived client: the same service key is redefined many times
        for combo in combos:
            n += 1
            svc = UserService(name="s", key=77, args=[UserServiceArg(name=f"a{i}", type=t) for i, (t, _) in enumerate(combo)])
            data = {f"a{i}": v for i, (_, v) in enumerate(combo)}
            cli, sent, loop = cli0, sent0, loop0
            del sent[:]
            try:
                cli.execute_service(svc, data)
                ok_ = len(sent) == 1 and sent[0].key == 77 and len(sent[0].args) == len(combo)
                if ok_:
                    for arg, (t, v) in zip(sent[0].args, combo):
                        want_field = ("int_" if (major, minor) >= (1, 3) else "legacy_int") if t == T.INT else field[t]
                        set_fields = {fd.name for fd, _ in arg.ListFields()}
                        got = getattr(arg, want_field)
                        gotv = list(got) if isinstance(v, list) else got
                        wantv = [f32(x) for x in v] if t == T.FLOAT_ARRAY else (f32(v) if t == T.FLOAT else v)
                        default = v in (0, 0.0, "", False, [])
                        if gotv != wantv or (set_fields - {want_field}) or (not default and want_field not in set_fields):
                            ok_ = False
                if not ok_ and bad is None:
                    bad = {"api_version": [major, minor], "args": [(t.name, repr(v)) for t, v in combo], "sent": str(sent[0]) if sent else None}
            except Exception as e:
                if bad is None:
                    bad = {"api_version": [major, minor], "args": [(t.name, repr(v)) for t, v in combo], "raised": repr(e)}
        loop0.close()
    return [Obligation(id="C15/bounded/client.APIClient.execute_service/arguments-in-the-right-fields", property="C15", kind="property",
                       status="discharged" if bad is None else "refuted", backend="bounded:native", ms=(time.time() - t0) * 1000,
                       goal=f"{n} service/argument/version combinations: one request, key carried, each argument in exactly the field of its type (legacy_int below 1.3)",
                       function="aioesphomeapi.client.APIClient.execute_service", model=bad, witness=str(bad)[:200] if bad else "", detail=f"bounded: {n} cases")]

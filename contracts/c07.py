"""C07 - stop callback fires exactly once per established session, with the right reason (DESIGN 4, C07)."""
from pyvc.sidecar import *  # noqa: F401,F403
from contracts import conn

PROPERTY = "C07"
LEVEL = "proof"
ASSUMPTIONS = conn.COMMON_ASSUMPTIONS


def targets(eng):
    return conn.targets_for(eng, ["__init__", "lemma:step", "_cleanup", "report_fatal_error", "_handle_disconnect_request_internal", "force_disconnect",
                                  "disconnect", "_async_pong_not_received", "send_messages", "_set_connection_state", "finish_connection",
                                  "start_connection", "process_packet", "_async_send_keep_alive"], ["C07"])


# built-in mutants of the real source text for the thorough tier's self-check (each must be refuted by a named obligation)
MUTANTS = [('stop-callback-without-was-connected', 'aioesphomeapi/connection.py', '        if (on_stop := self.on_stop) is not None and was_connected:', '        if (on_stop := self.on_stop) is not None:'),
           ('stop-callback-kept', 'aioesphomeapi/connection.py', '            self.on_stop = None\n            on_stop(self._expected_disconnect)', '            on_stop(self._expected_disconnect)')]

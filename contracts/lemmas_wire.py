"""Lemmas about the wire spec functions (ghost code: bodies are proof scripts executed by pyvc).

A lemma is a Python function whose contract (requires/ensures) is proved from its body: `unfold(f(x))`
adds one definitional instance, `assert e` proves e and then uses it, a call of a lemma (including the
lemma itself on a smaller argument: induction, measure checked) uses that lemma's contract.
"""
from pyvc.sidecar import Contract, contract_target, register_lemmas

M = "contracts.lemmas_wire."


def types_nonneg_at(P: "seq[tuple[int,bytes]]", k: int, i: int):
    unfold(types_nonneg(P, k))
    if i < k - 1:
        types_nonneg_at(P, k - 1, i)


def lemma_contracts():
    return [
        Contract(M + "types_nonneg_at", params={"P": "seq[tuple[int,bytes]]", "k": "int", "i": "int"},
                 requires=["0 <= i", "i < k", "k <= len(P)", "types_nonneg(P, k)"],
                 ensures=["P[i][0] >= 0"], decreases="k", recursive_ok=True, kind="auxiliary", tags=["C02"]),
    ]


def lemma_targets(eng):
    return register_lemmas(eng, "contracts.lemmas_wire", lemma_contracts())

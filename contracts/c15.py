"""C15 - commands carry exactly the arguments the caller supplied (DESIGN 4, C15).

One contract per command method of APIClient, *generated* from the request message's descriptor and the rule stated
in the property: key carried; for every optional argument its value together with its has_<field> flag exactly when
supplied (falsy values included); every other field at its proto3 default; seconds -> whole milliseconds; rgb split;
legacy encodings below the documented API versions.  Optional arguments are symbolic options, so one query per path
covers all subsets and all values."""
from pyvc.sidecar import *  # noqa: F401,F403
from contracts.common_conn import *  # noqa: F401,F403

PROPERTY = "C15"
LEVEL = "proof"
ASSUMPTIONS = [
    "A-TYPES: arguments have the annotated types; integer arguments fit the 32/64-bit range of the proto field they go to (precondition)",
    "A-FLOAT: float arguments are reals; protobuf's float32 rounding is the uninterpreted function f32 on both sides",
    "A-PROTOBUF: message objects are records of typed fields with proto3 defaults; assigning None / a wrong type raises",
    "Inv_conn(I-apiv): a connected connection has api_version set (precondition here; established by _process_hello_resp before CONNECTED)",
    "send_messages is represented by its C09/C02 contract: records the batch, may raise an APIConnectionError subclass",
]
NOT_DECIDED = ["execute_service (dynamic getattr/setattr over user-service argument types) is covered by a bounded native stand-in only"]
BOUNDED = [{"function": "aioesphomeapi.client.APIClient.execute_service", "engine": "native enumeration", "bound": "all 8 argument types x API versions {1.2,1.3,1.10} x 3 values, singly and all together"}]

M = "aioesphomeapi.model."

# method -> (message, {param: type}, {field: expected expression over params}), generated below from the rule + exceptions
OPT_FLOAT, OPT_INT, OPT_BOOL, OPT_STR = "opt[real]", "opt[int]", "opt[bool]", "opt[str]"


def E(name):
    return f"opt[enum[{M}{name}]]"


COMMANDS = {
    "cover_command": ("CoverCommandRequest", {"key": "int", "position": OPT_FLOAT, "tilt": OPT_FLOAT, "stop": "bool"}, "cover"),
    "fan_command": ("FanCommandRequest", {"key": "int", "state": OPT_BOOL, "speed": E("FanSpeed"), "speed_level": OPT_INT, "oscillating": OPT_BOOL,
                                           "direction": E("FanDirection"), "preset_mode": OPT_STR}, None),
    "light_command": ("LightCommandRequest", {"key": "int", "state": OPT_BOOL, "brightness": OPT_FLOAT, "color_mode": OPT_INT, "color_brightness": OPT_FLOAT,
                                               "rgb": "opt[tuple[real,real,real]]", "white": OPT_FLOAT, "color_temperature": OPT_FLOAT, "cold_white": OPT_FLOAT,
                                               "warm_white": OPT_FLOAT, "transition_length": OPT_FLOAT, "flash_length": OPT_FLOAT, "effect": OPT_STR}, "light"),
    "switch_command": ("SwitchCommandRequest", {"key": "int", "state": "bool"}, None),
    "climate_command": ("ClimateCommandRequest", {"key": "int", "mode": E("ClimateMode"), "target_temperature": OPT_FLOAT, "target_temperature_low": OPT_FLOAT,
                                                   "target_temperature_high": OPT_FLOAT, "fan_mode": E("ClimateFanMode"), "swing_mode": E("ClimateSwingMode"),
                                                   "custom_fan_mode": OPT_STR, "preset": E("ClimatePreset"), "custom_preset": OPT_STR, "target_humidity": OPT_FLOAT}, "climate"),
    "number_command": ("NumberCommandRequest", {"key": "int", "state": "real"}, None),
    "date_command": ("DateCommandRequest", {"key": "int", "year": "int", "month": "int", "day": "int"}, None),
    "time_command": ("TimeCommandRequest", {"key": "int", "hour": "int", "minute": "int", "second": "int"}, None),
    "datetime_command": ("DateTimeCommandRequest", {"key": "int", "epoch_seconds": "int"}, None),
    "select_command": ("SelectCommandRequest", {"key": "int", "state": "str"}, None),
    "siren_command": ("SirenCommandRequest", {"key": "int", "state": OPT_BOOL, "tone": OPT_STR, "volume": OPT_FLOAT, "duration": OPT_INT}, None),
    "button_command": ("ButtonCommandRequest", {"key": "int"}, None),
    "lock_command": ("LockCommandRequest", {"key": "int", "command": f"enum[{M}LockCommand]", "code": OPT_STR}, None),
    "valve_command": ("ValveCommandRequest", {"key": "int", "position": OPT_FLOAT, "stop": "bool"}, None),
    "media_player_command": ("MediaPlayerCommandRequest", {"key": "int", "command": E("MediaPlayerCommand"), "volume": OPT_FLOAT, "media_url": OPT_STR, "announcement": OPT_BOOL}, None),
    "text_command": ("TextCommandRequest", {"key": "int", "state": "str"}, None),
    "update_command": ("UpdateCommandRequest", {"key": "int", "command": f"enum[{M}UpdateCommand]"}, None),
    "alarm_control_panel_command": ("AlarmControlPanelCommandRequest", {"key": "int", "command": f"enum[{M}AlarmControlPanelCommand]", "code": OPT_STR}, None),
}


def _default(fd):
    from pyvc.heapmodel import _fd_type
    return {"int": "0", "bool": "False", "real": "0.0", "str": "''", "bytes": "b''"}[_fd_type(fd)]


def _conv(fd, p):
    from google.protobuf.descriptor import FieldDescriptor as FD
    from pyvc.heapmodel import _fd_type
    t = _fd_type(fd)
    if t == "real":
        return f"f32({p})" if fd.type == FD.TYPE_FLOAT else p
    if t == "int":
        return f"int({p})"
    return p


def expected_fields(method):
    """field -> expected-value expression, from the has_<field> rule of the statement + the documented exceptions."""
    import aioesphomeapi.api_pb2 as pb
    from pyvc.heapmodel import int_range, _fd_type
    msgname, params, special = COMMANDS[method]
    D = getattr(pb, msgname).DESCRIPTOR
    fds = {f.name: f for f in D.fields}
    exp = {}
    pre = []
    opt = {p for p, t in params.items() if t.startswith("opt[")}
    for p, t in params.items():
        if p == "rgb":
            exp["has_rgb"] = "rgb is not None"
            for i, c in enumerate(("red", "green", "blue")):
                exp[c] = f"(f32(rgb[{i}]) if rgb is not None else 0.0)"
            continue
        if p not in fds:
            raise Unsupported(f"{method}: parameter {p} has no field in {msgname}")
        fd = fds[p]
        conv = _conv(fd, p)
        if p in ("transition_length", "flash_length"):
            conv = f"int(round({p} * 1000))"            # seconds -> whole milliseconds (statement)
        if p in opt:
            if "has_" + p in fds:
                exp["has_" + p] = f"{p} is not None"
            exp[p] = f"({conv} if {p} is not None else {_default(fd)})"
        else:
            exp[p] = conv
        if _fd_type(fd) == "int" and not t.startswith("enum") and "enum" not in t:
            lo, hi = int_range(fd)
            rng = f"{lo} <= {p} and {p} <= {hi}"
            if p in ("transition_length", "flash_length"):
                rng = f"0 <= int(round({p} * 1000)) and int(round({p} * 1000)) <= {hi}"
            pre.append((f"{p}-fits-field", f"implies({p} is not None, {rng})" if p in opt else rng))
    for p in ("transition_length", "flash_length"):
        if p in params:
            pre.append((f"{p}-fits-field", f"implies({p} is not None, 0 <= int(round({p} * 1000)) and int(round({p} * 1000)) <= 4294967295)"))
    # documented legacy encodings
    if special == "cover":
        new = "apiv_ge(self, 1, 1)"
        exp["has_position"] = f"{new} and position is not None"
        exp["position"] = f"(f32(position) if ({new} and position is not None) else 0.0)"
        exp["has_tilt"] = f"{new} and tilt is not None"
        exp["tilt"] = f"(f32(tilt) if ({new} and tilt is not None) else 0.0)"
        exp["stop"] = f"{new} and stop"
        legacy = f"(not {new}) and (stop or (position is not None and (position == 1.0 or position == 0.0)))"
        exp["has_legacy_command"] = legacy
        exp["legacy_command"] = (f"((2 if stop else (0 if position == 1.0 else 1)) if ({legacy}) else 0)")   # STOP=2, OPEN=0, CLOSE=1 (api.proto LegacyCoverCommand)
    if special == "climate":
        old = "(not apiv_ge(self, 1, 5))"
        exp["has_preset"] = f"preset is not None and not {old}"
        exp["preset"] = f"(int(preset) if (preset is not None and not {old}) else 0)"
        exp["has_legacy_away"] = f"preset is not None and {old}"
        exp["legacy_away"] = f"preset is not None and {old} and int(preset) == 2"       # CLIMATE_PRESET_AWAY = 2 (api.proto)
    for name, fd in fds.items():
        if name not in exp:
            exp[name] = _default(fd)
    return msgname, params, exp, pre


def apiv_ge(self, major, minor):
    """Negotiated API version >= major.minor (lexicographic on (major, minor))."""
    v = self._connection.api_version
    return v.major > major or (v.major == major and v.minor >= minor)


def connected(self):
    return self._connection is not None and self._connection.is_connected


def command_contract(method):
    msgname, params, exp, pre = expected_fields(method)
    ens = [("exactly-one-request", f"len(sent) == 1 and type(sent[0]) is {msgname}")]
    for f, e in sorted(exp.items()):
        ens.append((f"field:{f}", f"sent[0].{f} == ({e})"))
    return Contract(
        CLIENT + "APIClient." + method, self_type="inst[APIClient]", params=params, tags=["C15"],
        requires=[("session-alive", "connected(self)"), ("I-apiv", "self._connection.api_version is not None")] + pre,
        ensures=ens,
        raises={"APIConnectionError": {"ensures": [("at-most-the-one-request", "len(sent) == 0")]}},
    )


def targets(eng):
    setup_common(eng)
    conn_specs(eng)
    install_send_log(eng)
    names = eng.hooks.setdefault("names", {})
    m = source.get_module("contracts.c15")
    for fn in ("apiv_ge", "connected"):
        names[fn] = VFunc("py", node=m.funcs[fn], module="contracts.c15", qualname=fn, closure=None)

    def f32_impl(eng_, st, args, kwargs):
        return ok(st, VReal(f32_f(as_real(args[0]))))
    from pyvc.builtins import splitargs
    names["f32"] = VFunc("builtin", name="f32", impl=splitargs(f32_impl))
    import aioesphomeapi.api_pb2 as pb
    for meth, (msgname, _, _) in COMMANDS.items():
        names[msgname] = VClass(getattr(pb, msgname))
    eng.inline.update({CLIENT + "APIClient._get_connection", CLIENT + "APIClient.api_version"})
    import contracts.native_client as nc
    ts = []
    for m_ in COMMANDS:
        c = command_contract(m_)
        texts = {cl.name: cl.text for cl in c.ensures}
        ts.append(contract_target(c, replay=nc.replay_command(m_, COMMANDS[m_][1], texts.get)))
    ts.append(ground_target("bounded:execute_service", nc.bounded_execute_service, functions=["aioesphomeapi.client.APIClient.execute_service (bounded)"]))
    return ts

CF = "aioesphomeapi/client.py"
MUTANTS = [
    ("light-brightness-truthiness", CF, "        if brightness is not None:\n            req.has_brightness = True", "        if brightness:\n            req.has_brightness = True"),
    ("light-swap-green-blue", CF, "req.green = rgb[1]\n            req.blue = rgb[2]", "req.green = rgb[2]\n            req.blue = rgb[1]"),
    ("light-ms-truncate", CF, "req.transition_length = int(round(transition_length * 1000))", "req.transition_length = int(transition_length * 1000)"),
    ("fan-missing-flag", CF, "            req.has_oscillating = True\n", ""),
    ("cover-threshold", CF, "if apiv >= APIVersion(1, 1):", "if apiv >= APIVersion(1, 2):"),
    ("cover-legacy-const", CF, "elif position == 1.0:\n            req.legacy_command = LegacyCoverCommand.OPEN", "elif position == 1.0:\n            req.legacy_command = LegacyCoverCommand.CLOSE"),
    ("climate-away-threshold", CF, "if apiv < APIVersion(1, 5):", "if apiv <= APIVersion(1, 5):"),
    ("siren-duration-truthy", CF, "        if duration is not None:", "        if duration:"),
    ("valve-stop-always", CF, "        if stop:\n            req.stop = stop\n        self._get_connection().send_message(req)\n\n    def media_player_command", "        req.stop = True\n        self._get_connection().send_message(req)\n\n    def media_player_command"),
    ("date-swap", CF, "DateCommandRequest(key=key, year=year, month=month, day=day)", "DateCommandRequest(key=key, year=year, month=day, day=month)"),
    ("media-volume-flag-only", CF, "            req.volume = volume\n            req.has_volume = True", "            req.has_volume = True"),
]

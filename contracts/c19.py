"""C19 - the client never wedges and refuses work unless a session is alive (DESIGN 4, C19)."""
from pyvc.sidecar import *  # noqa: F401,F403
from contracts import client

PROPERTY = "C19"
LEVEL = "proof"
ASSUMPTIONS = ["A-PY, A-TYPES, A-LOOP, A-CALLBACK", "the connection's API methods are represented by the contracts proved for them under C02/C05/C07/C09/C11",
               "create_eager_task runs the coroutine's first step immediately (Python >= 3.12)"]


def targets(eng):
    return client.targets_for(eng, ["lifecycle", "gates"], ["C19"])


# built-in mutants of the real source text for the thorough tier's self-check (each must be refuted by a named obligation)
MUTANTS = [('on-stop-keeps-connection', 'aioesphomeapi/client.py', '        # Hook into on_stop handler to clear connection when stopped\n        self._connection = None', '        # Hook into on_stop handler to clear connection when stopped')]

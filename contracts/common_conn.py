"""Class specs and opaque-kind models shared by the connection/client properties (C05-C12, C15-C19)."""
from pyvc.sidecar import *  # noqa: F401,F403
from pyvc import heapmodel

CONN = "aioesphomeapi.connection."
CLIENT = "aioesphomeapi.client."

CONN_FIELDS = {
    "_params": "dataclass[ConnectionParams]",
    "on_stop": "opt[callable[OnStop]]",
    "_socket": "opt[obj[Socket]]",
    "_frame_helper": "opt[obj[FrameHelper]]",
    "api_version": "opt[dataclass[APIVersion]]",
    "connection_state": "enum[aioesphomeapi.connection.ConnectionState]",
    "_message_handlers": "obj[HandlerMap]",
    "log_name": "str",
    "_read_exception_futures": "setobj[Future]",
    "_ping_timer": "opt[obj[Timer]]",
    "_pong_timer": "opt[obj[Timer]]",
    "_keep_alive_interval": "real",
    "_keep_alive_timeout": "real",
    "_start_connect_future": "opt[obj[Future]]",
    "_finish_connect_future": "opt[obj[Future]]",
    "_fatal_exception": "opt[exc[Exception]]",
    "_expected_disconnect": "bool",
    "_loop": "obj[Loop]",
    "_send_pending_ping": "bool",
    "is_connected": "bool",
    "_handshake_complete": "bool",
    "_debug_enabled": "bool",
    "received_name": "str",
    "connected_address": "opt[str]",
}

CLIENT_FIELDS = {
    "_debug_enabled": "bool",
    "_params": "dataclass[ConnectionParams]",
    "_connection": "opt[inst[APIConnection]]",
    "cached_name": "opt[str]",
    "_background_tasks": "setobj[Task]",
    "_loop": "obj[Loop]",
    "log_name": "str",
}


def conn_specs(eng):
    from aioesphomeapi.connection import APIConnection
    from aioesphomeapi.client import APIClient
    heapmodel.DATACLASS_FIELD_TYPES.update({
        ("ConnectionParams", "addresses"): "seq[str]", ("ConnectionParams", "port"): "int", ("ConnectionParams", "password"): "opt[str]",
        ("ConnectionParams", "client_info"): "str", ("ConnectionParams", "keepalive"): "real",
        ("ConnectionParams", "zeroconf_manager"): "obj[ZeroconfManager]", ("ConnectionParams", "noise_psk"): "opt[str]",
        ("ConnectionParams", "expected_name"): "opt[str]",
        ("APIVersion", "major"): "int", ("APIVersion", "minor"): "int",
    })
    eng.add_class_spec("APIConnection", APIConnection, CONN_FIELDS)
    eng.add_class_spec("APIClient", APIClient, CLIENT_FIELDS)
    eng.exception_universe.extend(_api_errors())


def _api_errors():
    import aioesphomeapi.core as core
    return [getattr(core, n) for n in dir(core) if isinstance(getattr(core, n), type) and issubclass(getattr(core, n), Exception)]


def snapshot_msg(eng, st, v):
    """Immutable copy of a message object (what was handed to the connection at that moment)."""
    if isinstance(v, VRef) and st.heap[v.oid].kind == "msg":
        o = st.heap[v.oid].clone()
        for k, fv in list(o.f.items()):
            if isinstance(fv, VRef) and st.heap[fv.oid].kind == "list":
                o.f[k] = VTuple(list(st.heap[fv.oid].f["items"]))
        return VRef(st.alloc(o))
    return v


def install_send_log(eng, may_fail=True):
    """`send_messages(msgs)` as seen from the client layer: records the batch in the per-path event log
    (contract-language name `sent` = tuple of all messages sent so far on this path) and may fail with the
    connection-error classes send_messages is proved (C09) to be limited to."""
    import aioesphomeapi.core as core

    def model(eng_, st, fv, args, kwargs):
        msgs = eng_.iter_concrete(args[1], st)
        s_err = st.clone()
        st.events = st.events + [("send", [snapshot_msg(eng_, st, m) for m in msgs])]
        out = [(st, VNone)]
        if may_fail:
            s_err.note("send!APIConnectionError")
            out.append((s_err, Raised(eng_.fresh_exception(s_err, core.APIConnectionError))))
        return out
    c = Contract(CONN + "APIConnection.send_messages", self_type="inst[APIConnection]")
    c.model = model
    eng.contracts[c.target] = c
    eng.inline.add(CONN + "APIConnection.send_message")

    def names_dynamic(name, st):
        if name == "sent":
            out = []
            for ev in st.events:
                if ev[0] == "send":
                    out.extend(ev[1])
            return VTuple(out)
        return None
    eng.hooks["names_dynamic"] = names_dynamic
